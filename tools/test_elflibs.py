#!/usr/bin/env python3
"""Validation of lib/elfread.py (against readelf and structural ground truth) and lib/elfgen.py
(readelf, GNU ld, ld.lld, execution). Exits 0 iff every check passed."""
import os
import re
import shutil
import struct
import subprocess
import sys

sys.path.insert(0, os.path.join(os.path.dirname(os.path.abspath(__file__)), '..', 'lib'))
import elfread as E   # noqa: E402
import elfgen as G    # noqa: E402

FAILS, NCHECKS = [], [0]
WORK = '/dev/shm/verif.test_elflibs.%d' % os.getpid()


def check(cond, msg):
    NCHECKS[0] += 1
    if not cond:
        FAILS.append(msg)
        if len(FAILS) <= 60:
            print('FAIL:', msg[:400])
    return cond


def eq(a, b, msg):
    return check(a == b, '%s: elfread=%r expected=%r' % (msg, a, b))


def sh(cmd, ok=(0,), **kw):
    p = subprocess.run(cmd, stdout=subprocess.PIPE, stderr=subprocess.PIPE, cwd=WORK, **kw)
    if ok is not None and p.returncode not in ok:
        raise RuntimeError('command failed (%d): %s\n%s' % (p.returncode, ' '.join(cmd),
                                                           p.stderr.decode(errors='replace')))
    return p.stdout.decode(errors='replace'), p.stderr.decode(errors='replace'), p.returncode


def readelf(*args):
    out, err, _ = sh(['readelf', '-W', *args])
    return out, err


def write(name, text):
    with open(os.path.join(WORK, name), 'w') as f:
        f.write(text)
    return name


# ------------------------------------------------------------------------------- readelf parsers
SHT_NAMES = {'NULL': 0, 'PROGBITS': 1, 'SYMTAB': 2, 'STRTAB': 3, 'RELA': 4, 'HASH': 5, 'DYNAMIC': 6,
             'NOTE': 7, 'NOBITS': 8, 'REL': 9, 'DYNSYM': 11, 'INIT_ARRAY': 14, 'FINI_ARRAY': 15,
             'PREINIT_ARRAY': 16, 'GROUP': 17, 'SYMTAB SECTION INDICES': 18, 'RELR': 19,
             'GNU_HASH': 0x6ffffff6, 'VERDEF': 0x6ffffffd, 'VERNEED': 0x6ffffffe,
             'VERSYM': 0x6fffffff, 'X86_64_UNWIND': 0x70000001, 'LLVM_ADDRSIG': 0x6fff4c03}
FLAG_LETTERS = {'W': 1, 'A': 2, 'X': 4, 'M': 0x10, 'S': 0x20, 'I': 0x40, 'L': 0x80, 'O': 0x100,
                'G': 0x200, 'T': 0x400, 'C': 0x800, 'E': 0x80000000, 'R': 0x200000}
PT_NAMES = {'NULL': 0, 'LOAD': 1, 'DYNAMIC': 2, 'INTERP': 3, 'NOTE': 4, 'SHLIB': 5, 'PHDR': 6,
            'TLS': 7, 'GNU_EH_FRAME': 0x6474e550, 'GNU_STACK': 0x6474e551,
            'GNU_RELRO': 0x6474e552, 'GNU_PROPERTY': 0x6474e553}
STT_NAMES = {'NOTYPE': 0, 'OBJECT': 1, 'FUNC': 2, 'SECTION': 3, 'FILE': 4, 'COMMON': 5, 'TLS': 6,
             'IFUNC': 10}
STB_NAMES = {'LOCAL': 0, 'GLOBAL': 1, 'WEAK': 2, 'UNIQUE': 10}
STV_NAMES = {'DEFAULT': 0, 'INTERNAL': 1, 'HIDDEN': 2, 'PROTECTED': 3}


def cmp_header(e, path):
    out, _ = readelf('-h', path)
    g = lambda pat: re.search(pat, out).group(1)   # noqa: E731
    tname = g(r'Type:\s+(\S+)')
    eq(e.e_type, {'REL': 1, 'EXEC': 2, 'DYN': 3}[tname], path + ' e_type')
    eq(e.e_entry, int(g(r'Entry point address:\s+0x([0-9a-f]+)'), 16), path + ' e_entry')
    eq(e.e_phoff, int(g(r'Start of program headers:\s+(\d+)')), path + ' e_phoff')
    eq(e.e_shoff, int(g(r'Start of section headers:\s+(\d+)')), path + ' e_shoff')
    eq(e.e_flags, int(g(r'Flags:\s+0x([0-9a-f]+)'), 16), path + ' e_flags')
    m = re.search(r'Number of program headers:\s+(\d+)(?: \((\d+)\))?', out)
    eq(e.e_phnum, int(m.group(2) or m.group(1)), path + ' e_phnum')
    m = re.search(r'Number of section headers:\s+(\d+)(?: \((\d+)\))?', out)
    eq(e.e_shnum, int(m.group(2) or m.group(1)), path + ' e_shnum')
    m = re.search(r'Section header string table index:\s+(\d+)(?: \((\d+)\))?', out)
    eq(e.e_shstrndx, int(m.group(2) or m.group(1)), path + ' e_shstrndx')
    mach = g(r'Machine:\s+(.*)')
    eq(e.e_machine, 62 if 'X86-64' in mach else 183 if 'AArch64' in mach else -1,
       path + ' e_machine')


def cmp_sections(e, path):
    out, _ = readelf('-S', path)
    rx = re.compile(r'^\s*\[\s*(\d+)\] (.*?)\s+([A-Z][A-Za-z0-9_ ]*?|[0-9a-f]{8}: <unknown>|'
                    r'LOOS\+0x[0-9a-f]+)\s+([0-9a-f]{16}) ([0-9a-f]{6,}) ([0-9a-f]{6,}) '
                    r'([0-9a-f]{2,})\s+([A-Za-z]*)\s+(\d+)\s+(\d+)\s+(\d+)$')
    n = 0
    for line in out.splitlines():
        m = rx.match(line)
        if not m:
            continue
        n += 1
        idx = int(m.group(1))
        s = e.sections[idx]
        w = '%s section %d' % (path, idx)
        eq(s.name, m.group(2), w + ' name')
        if m.group(3) in SHT_NAMES:
            eq(s.sh_type, SHT_NAMES[m.group(3)], w + ' type')
        eq((s.sh_addr, s.sh_offset, s.sh_size, s.sh_entsize),
           tuple(int(m.group(i), 16) for i in (4, 5, 6, 7)), w + ' addr/off/size/entsize')
        eq((s.sh_link, s.sh_info, s.sh_addralign), tuple(int(m.group(i)) for i in (9, 10, 11)),
           w + ' link/info/align')
        flags = 0
        for ch in m.group(8):
            flags |= FLAG_LETTERS.get(ch, 0)
        known = sum(FLAG_LETTERS.values())
        eq(s.sh_flags & known, flags, w + ' flags')
    eq(len(e.sections), n, path + ' number of sections parsed from readelf -S')
    eq(e.e_shnum, len(e.sections), path + ' e_shnum vs sections')
    for s in e.sections:
        check(e.section(s.name) is e.sections_named(s.name)[0], path + ' section() lookup')
    check(e.section('.no.such.section') is None, path + ' section() of absent name')


def cmp_segments(e, path):
    out, _ = readelf('-l', path)
    rx = re.compile(r'^  (\S+)\s+0x([0-9a-f]+) 0x([0-9a-f]+) 0x([0-9a-f]+) 0x([0-9a-f]+) '
                    r'0x([0-9a-f]+) ([R ][W ][E ]) 0x([0-9a-f]+)$')
    rows = [m for m in map(rx.match, out.splitlines()) if m]
    eq(len(e.segments), len(rows), path + ' number of segments')
    for p, m in zip(e.segments, rows):
        w = '%s segment %d' % (path, p.index)
        if m.group(1) in PT_NAMES:
            eq(p.p_type, PT_NAMES[m.group(1)], w + ' type')
        eq((p.p_offset, p.p_vaddr, p.p_paddr, p.p_filesz, p.p_memsz),
           tuple(int(m.group(i), 16) for i in (2, 3, 4, 5, 6)), w + ' off/vaddr/paddr/filesz/memsz')
        fl = m.group(7)
        eq(p.p_flags, (4 if 'R' in fl else 0) | (2 if 'W' in fl else 0) | (1 if 'E' in fl else 0),
           w + ' flags')
        eq(p.p_align, int(m.group(8), 16), w + ' align')


def parse_symbols(path):
    out, _ = readelf('-s', path)
    tabs, cur = {}, None
    rx = re.compile(r'^\s*(\d+): ([0-9a-f]{16})\s+(\S+) (\S+)\s+(\S+)\s+(\S+)\s+(?:\[.*?\]\s+)?'
                    r'(\S+)(?: (.*))?$')
    for line in out.splitlines():
        m = re.match(r"Symbol table '(.*)' contains (\d+) entr", line)
        if m:
            cur = tabs.setdefault(m.group(1), [])
            continue
        m = rx.match(line)
        if m and cur is not None:
            cur.append(m.groups())
    return tabs


def cmp_symbols(e, path):
    tabs = parse_symbols(path)
    for which in ('.symtab', '.dynsym'):
        syms = e.symbols(which)
        rows = tabs.get(which, [])
        eq(len(syms), len(rows), '%s %s symbol count' % (path, which))
        for s, r in zip(syms, rows):
            w = '%s %s[%d]' % (path, which, s.index)
            num, value, size, typ, bind, vis, ndx, name = r
            name = name or ''
            eq(s.index, int(num), w + ' index')
            eq(s.value, int(value, 16), w + ' value')
            eq(s.size, int(size, 0), w + ' size')
            eq((s.type, s.bind, s.visibility),
               (STT_NAMES.get(typ), STB_NAMES.get(bind), STV_NAMES.get(vis)), w + ' type/bind/vis')
            exp_ndx = {'UND': 0, 'ABS': 0xfff1, 'COM': 0xfff2}.get(ndx)
            eq(s.shndx, int(ndx) if exp_ndx is None else exp_ndx, w + ' shndx')
            if s.type == E.STT_SECTION and not s.name:
                continue    # readelf shows the section's name for unnamed section symbols
            if which == '.dynsym':
                name = re.sub(r' \(\d+\)$', '', name)
                if s.version is None:
                    mine = s.name
                elif s.version_hidden or s.shndx == 0:
                    mine = '%s@%s' % (s.name, s.version)
                else:
                    mine = '%s@@%s' % (s.name, s.version)
                eq(mine, name, w + ' name/version')
            else:
                eq(s.name, name, w + ' name')
    return len(e.symbols('.symtab')), len(e.symbols('.dynsym'))


def cmp_dynamic(e, path):
    out, _ = readelf('-d', path)
    rows = re.findall(r'^ 0x([0-9a-f]{16}) \((\w+)\)\s+(.*)$', out, re.M)
    rows = [(int(t, 16), n, v.strip()) for t, n, v in rows]
    if rows and rows[-1][0] == 0:
        while rows and rows[-1][0] == 0:
            rows.pop()
    dyn = e.dynamic()
    eq([t for t, _ in dyn], [t for t, _, _ in rows], path + ' dynamic tags')
    needed = []
    for (tag, val), (_t, name, text) in zip(dyn, rows):
        w = '%s dynamic %s' % (path, name)
        if name in E.DT.values():
            eq(E.DT.get(tag), name, w + ' tag name')
        if re.fullmatch(r'0x[0-9a-f]+', text):
            eq(val, int(text, 16), w)
        elif re.fullmatch(r'(\d+) \(bytes\)', text):
            eq(val, int(text.split()[0]), w)
        elif re.fullmatch(r'\d+', text):
            eq(val, int(text), w)
        m = re.search(r'\[(.*)\]$', text)
        if name == 'NEEDED':
            needed.append(m.group(1))
        elif name == 'SONAME':
            eq(e.soname(), m.group(1), w)
        elif name == 'RUNPATH':
            eq(e.runpath(), m.group(1), w)
        elif name == 'RPATH':
            eq(e.rpath(), m.group(1), w)
    eq(e.needed(), needed, path + ' needed()')
    dd = e.dynamic_dict()
    check(all(dd[t] == next(v for t2, v in dyn if t2 == t) for t in dd), path + ' dynamic_dict')
    if not any(n == 'SONAME' for _, n, _ in rows):
        eq(e.soname(), None, path + ' soname absent')
    return len(dyn)


def cmp_relocations(e, path):
    out, _ = readelf('-r', path)
    table = E.R_X86_64 if e.e_machine == 62 else E.R_AARCH64
    mine = {}
    for r in e.relocations():
        mine.setdefault(r.section_name, []).append(r)
    total, cur, relr = 0, None, {}
    seen = set()
    rx = re.compile(r'^([0-9a-f]{16})  ([0-9a-f]{16}) (\S+)\s*(.*)$')
    for line in out.splitlines():
        m = re.match(r"Relocation section '(.*)' at offset 0x[0-9a-f]+ contains (\d+) entr", line)
        if m:
            cur, cnt = m.group(1), int(m.group(2))
            sec = e.section(cur)
            if sec.sh_type == E.SHT_RELR:
                relr[cur] = []
            else:
                seen.add(cur)
                eq(len(mine.get(cur, [])), cnt, '%s %s relocation count' % (path, cur))
                it = iter(mine.get(cur, []))
            continue
        if cur in relr:
            if re.fullmatch(r'[0-9a-f]{16}', line.strip()):
                relr[cur].append(int(line.strip(), 16))
            continue
        m = rx.match(line)
        if not m or cur is None:
            continue
        r = next(it, None)
        if r is None:
            check(False, '%s %s: readelf lists more entries than elfread' % (path, cur))
            continue
        total += 1
        w = '%s %s @%#x' % (path, cur, r.offset)
        info = int(m.group(2), 16)
        eq((r.offset, r.type, r.sym_index), (int(m.group(1), 16), info & 0xffffffff, info >> 32), w)
        eq(table.get(r.type), m.group(3), w + ' type name')
        eq(r.target_section_index, e.section(cur).sh_info, w + ' sh_info')
        rest = m.group(4).strip()
        m2 = re.fullmatch(r'([0-9a-f]{16})\s+(.*?) ([+-]) ([0-9a-f]+)', rest)
        if m2:
            addend = int(m2.group(4), 16) * (1 if m2.group(3) == '+' else -1)
            eq(r.addend, addend, w + ' addend')
            eq(r.sym_name, m2.group(2).split('@')[0] if m2.group(2) else '', w + ' symbol name')
        elif re.fullmatch(r'[0-9a-f]+', rest):
            eq(r.addend & 0xffffffffffffffff, int(rest, 16), w + ' addend (no symbol)')
        else:
            check(False, w + ' unparsed readelf relocation line: ' + line)
    eq(sorted(mine), sorted(seen), path + ' set of relocation sections')
    return total, relr


def cmp_notes(e, path):
    out, _ = readelf('-n', path)
    exp, cur = [], None
    for line in out.splitlines():
        m = re.match(r'Displaying notes found in: (\S+)', line)
        if m:
            cur = m.group(1)
            continue
        m = re.match(r'^  (\S+)\s+0x([0-9a-f]{8})\s+(.*)$', line)
        if m and cur:
            exp.append((cur, m.group(1), int(m.group(2), 16)))
    eq([(w, o, len(d)) for w, o, _t, d in e.notes()], exp, path + ' notes (where, owner, descsz)')
    m = re.search(r'Build ID: ([0-9a-f]+)', out)
    bid = e.build_id()
    eq(bid.hex() if bid is not None else None, m.group(1) if m else None, path + ' build id')
    m = re.search(r'Properties: (.*)', out)
    props = e.gnu_properties()
    if m and 'x86 feature:' in m.group(1):
        feat = [d for t, d in props if t == E.GNU_PROPERTY_X86_FEATURE_1_AND]
        if check(len(feat) == 1 and len(feat[0]) == 4, path + ' x86 feature property present'):
            bits = struct.unpack('<I', feat[0])[0]
            names = re.search(r'x86 feature: ([A-Z, ]+)', m.group(1)).group(1)
            eq(bits & 3, (1 if 'IBT' in names else 0) | (2 if 'SHSTK' in names else 0),
               path + ' x86 feature bits')
    elif m and 'AArch64 feature:' in m.group(1):
        feat = [d for t, d in props if t == E.GNU_PROPERTY_AARCH64_FEATURE_1_AND]
        if check(len(feat) == 1, path + ' aarch64 feature property present'):
            bits = struct.unpack('<I', feat[0])[0]
            eq(bits & 3, (1 if 'BTI' in m.group(1) else 0) | (2 if 'PAC' in m.group(1) else 0),
               path + ' aarch64 feature bits')
    elif not m:
        eq(props, [], path + ' no gnu properties')
    return len(exp)


def cmp_hexdump(e, path, secname):
    s = e.section(secname)
    if s is None or s.sh_type == E.SHT_NOBITS or s.sh_size == 0:
        return 0
    out, _ = readelf('-x', secname, path)
    got = bytearray()
    for line in out.splitlines():
        m = re.match(r'^  0x[0-9a-f]+ ', line)
        if m:
            got += bytes.fromhex(line[m.end():m.end() + 35].replace(' ', ''))
    eq(bytes(got), s.data, '%s hex dump of %s' % (path, secname))
    return 1


def cmp_versions(e, path):
    out, _ = readelf('-V', path)
    defs, needs, versym = [], [], []
    for line in out.splitlines():
        m = re.match(r'^\s+(?:0x)?[0-9a-f]+: Rev: 1\s+Flags: (.*?)\s+Index: (\d+)\s+Cnt: (\d+)'
                     r'\s+Name: (.*)$', line)
        if m:
            fl = (1 if 'BASE' in m.group(1) else 0) | (2 if 'WEAK' in m.group(1) else 0)
            defs.append([int(m.group(2)), fl, m.group(4), []])
            continue
        m = re.match(r'^\s+(?:0x)?[0-9a-f]+: Parent \d+: (.*)$', line)
        if m:
            defs[-1][3].append(m.group(1))
            continue
        m = re.match(r'^\s+(?:0x)?[0-9a-f]+: Version: 1\s+File: (.*?)\s+Cnt: (\d+)$', line)
        if m:
            needs.append((m.group(1), []))
            continue
        m = re.match(r'^\s+(?:0x)?[0-9a-f]+:\s+Name: (.*?)\s+Flags: (.*?)\s+Version: (\d+)$', line)
        if m:
            fl = 2 if 'WEAK' in m.group(2) else 0
            needs[-1][1].append((int(m.group(3)), m.group(1), fl))
            continue
        if re.match(r'^  [0-9a-f]{3}:', line):
            for num, h in re.findall(r'\s+([0-9a-f]+)(h| )\(', line[6:]):
                versym.append(int(num, 16) | (0x8000 if h == 'h' else 0))
    eq([list(d) for d in e.verdefs()], defs, path + ' verdefs')
    eq(e.verneeds(), needs, path + ' verneeds')
    eq(e.versym(), versym, path + ' versym')
    return len(defs), sum(len(i) for _, i in needs)


def cmp_image(e, path):
    """vaddr_to_offset / read_vaddr agree with section contents; bss reads as zeros."""
    n = 0
    for s in e.sections:
        if not s.sh_flags & E.SHF_ALLOC or not s.sh_size or e.e_type == E.ET_REL:
            continue
        w = '%s %s' % (path, s.name)
        if s.sh_type == E.SHT_NOBITS:
            if not s.sh_flags & E.SHF_TLS:
                eq(e.read_vaddr(s.sh_addr + s.sh_size - 1, 1), b'\0', w + ' bss tail reads zero')
                eq(e.vaddr_to_offset(s.sh_addr + s.sh_size - 1), None, w + ' bss tail has no offset')
            continue
        eq(e.vaddr_to_offset(s.sh_addr), s.sh_offset, w + ' vaddr_to_offset')
        eq(e.read_vaddr(s.sh_addr, s.sh_size), s.data, w + ' read_vaddr')
        n += 1
    if n:
        lo = min(p.p_vaddr for p in e.segments if p.p_type == E.PT_LOAD)
        eq(e.read_vaddr(lo, 4), b'\x7fELF', path + ' image starts with the ELF header') \
            if e.vaddr_to_offset(lo) == 0 else None
        eq(e.read_u32(lo), struct.unpack('<I', e.read_vaddr(lo, 4))[0], path + ' read_u32')
        eq(e.vaddr_to_offset(lo - 1), None, path + ' address below the image')
        try:
            e.read_vaddr(lo - 1, 1)
            check(False, path + ' read below the image should raise ElfError')
        except E.ElfError:
            check(True, '')
    interp = e.section('.interp')
    if interp is not None and e.segments:
        eq(e.read_cstr(interp.sh_addr), interp.data.rstrip(b'\0').decode(), path + ' read_cstr')
        eq(e.interp(), interp.data.rstrip(b'\0').decode(), path + ' interp()')
    return n


def cmp_hash(e, path):
    """Every defined dynamic symbol is found by both lookups; absent names are rejected; the
    decoded tables agree with an independent recomputation of the hashes."""
    dyn = e.symbols('.dynsym')
    if not dyn:
        return 0
    g, t = e.gnu_hash(), e.sysv_hash()
    defined = [s for s in dyn if s.index and s.shndx != 0]
    names = {s.name for s in dyn}
    absent = ['absent_symbol_%d' % i for i in range(300)] + ['', 'x', 'main_', '_']
    absent = [a for a in absent if a not in {s.name for s in defined}]
    n = 0
    for lookup, tab, label in ((e.gnu_lookup, g, 'gnu'), (e.sysv_lookup, t, 'sysv')):
        if tab is None:
            eq(lookup('anything'), None, '%s %s_lookup without table' % (path, label))
            continue
        for s in defined:
            if s.value == 0 and s.shndx != 0xfff1 and s.type != E.STT_TLS:
                continue   # glibc skips these too
            idx = lookup(s.name)
            n += 1
            if check(idx is not None, '%s %s_lookup(%r) found nothing' % (path, label, s.name)):
                check(dyn[idx].name == s.name and dyn[idx].shndx != 0,
                      '%s %s_lookup(%r) -> %d (%r)' % (path, label, s.name, idx, dyn[idx].name))
                if sum(1 for d in defined if d.name == s.name) == 1:
                    eq(idx, s.index, '%s %s_lookup(%r) index' % (path, label, s.name))
        for a in absent:
            eq(lookup(a), None, '%s %s_lookup of absent %r' % (path, label, a))
        for s in dyn:
            if s.shndx == 0 and s.name and s.name not in {d.name for d in defined}:
                eq(lookup(s.name), None, '%s %s_lookup of undefined %r' % (path, label, s.name))
    if g is not None:
        eq(g.symoffset + len(g.chains), len(dyn), path + ' gnu hash chain count vs dynsym size')
        eq(len(g.bloom), g.bloom_size, path + ' bloom size')
        eq(len(g.buckets), g.nbuckets, path + ' bucket count')
        for s in dyn[g.symoffset:]:
            h = E.dl_new_hash(s.name)
            eq(g.chains[s.index - g.symoffset] | 1, h | 1, '%s gnu chain value of %r' % (path, s.name))
            word = g.bloom[(h // 64) % g.bloom_size]
            check(word >> (h & 63) & 1 and word >> ((h >> g.bloom_shift) & 63) & 1,
                  '%s bloom bits of %r' % (path, s.name))
        sec = e.section('.gnu.hash')
        if sec is not None:
            raw = struct.pack('<4I', g.nbuckets, g.symoffset, g.bloom_size, g.bloom_shift) + \
                struct.pack('<%dQ' % len(g.bloom), *g.bloom) + \
                struct.pack('<%dI' % len(g.buckets), *g.buckets) + \
                struct.pack('<%dI' % len(g.chains), *g.chains)
            eq(raw, sec.data[:len(raw)], path + ' gnu hash re-serialises to .gnu.hash')
            check(len(sec.data) - len(raw) in (0, 4), path + ' .gnu.hash fully consumed')
    if t is not None:
        eq(t.nchain, len(dyn), path + ' sysv nchain vs dynsym size')
        sec = e.section('.hash')
        if sec is not None:
            raw = struct.pack('<%dI' % (2 + t.nbucket + t.nchain), t.nbucket, t.nchain,
                              *t.buckets, *t.chains)
            eq(raw, sec.data, path + ' sysv hash re-serialises to .hash')
    # Known-answer tests for the hash functions (values from the gABI / glibc test vectors).
    eq(E.dl_new_hash(''), 5381, 'dl_new_hash("")')
    eq(E.dl_new_hash('printf'), 0x156b2bb8, 'dl_new_hash("printf")')
    eq(E.elf_hash('printf'), 0x077905a6, 'elf_hash("printf")')
    eq(E.elf_hash(''), 0, 'elf_hash("")')
    return n


def cmp_eh_frame(e, path, need_hdr=True):
    recs = e.eh_frame()
    sec = e.section('.eh_frame')
    if sec is None:
        eq(recs, [], path + ' no .eh_frame')
        return 0, 0
    out, _ = readelf('--debug-dump=frames', path)
    rows = re.findall(r'^([0-9a-f]{8}) ([0-9a-f]{16}) ([0-9a-f]{8}) (CIE|FDE)'
                      r'(?: cie=([0-9a-f]{8}) pc=([0-9a-f]+)\.\.([0-9a-f]+))?', out, re.M)
    # readelf dumps every frame section; keep the rows of .eh_frame only.
    first = out.find('Contents of the .eh_frame section')
    nxt = out.find('Contents of the', first + 10)
    seg = out[first:nxt if nxt > 0 else len(out)]
    rows = re.findall(r'^([0-9a-f]{8}) ([0-9a-f]{16}) ([0-9a-f]{8}) (CIE|FDE)'
                      r'(?: cie=([0-9a-f]{8}) pc=([0-9a-f]+)\.\.([0-9a-f]+))?', seg, re.M)
    eq(len(recs), len(rows), path + ' .eh_frame record count vs readelf')
    for r, row in zip(recs, rows):
        w = '%s .eh_frame+%#x' % (path, r.offset)
        off, length, _id, kind, cie, lo, hi = row
        eq((r.offset, type(r).__name__, r.length), (int(off, 16), kind, int(length, 16) + 4), w)
        eq(r.vaddr, sec.sh_addr + r.offset, w + ' vaddr')
        if kind == 'FDE':
            eq(r.cie_offset, int(cie, 16), w + ' cie offset')
            check(isinstance(r.cie, E.CIE) and r.cie.offset == r.cie_offset, w + ' cie link')
            eq(r.pc_range, int(hi, 16) - int(lo, 16), w + ' pc range')
            if e.e_type != E.ET_REL:
                eq(r.pc_begin, int(lo, 16), w + ' pc begin')
    for m in re.finditer(r'Augmentation:\s+"(.*?)"\s+Code alignment factor: (\d+)\s+'
                         r'Data alignment factor: (-?\d+)\s+Return address column: (\d+)', seg):
        check(any(isinstance(r, E.CIE) and (r.augmentation, r.code_align, r.data_align, r.ra_reg)
                  == (m.group(1), int(m.group(2)), int(m.group(3)), int(m.group(4))) for r in recs),
              '%s CIE %r not matched' % (path, m.groups()))
    fdes = [r for r in recs if isinstance(r, E.FDE)]
    hdr = e.eh_frame_hdr()
    if hdr is None:
        check(not need_hdr, path + ' has no .eh_frame_hdr')
        return len(fdes), 0
    eq(hdr.version, 1, path + ' eh_frame_hdr version')
    eq(hdr.eh_frame_ptr, sec.sh_addr, path + ' eh_frame_ptr')
    eq(hdr.fde_count, len(fdes), path + ' fde_count vs FDEs in .eh_frame')
    eq(len(hdr.table), hdr.fde_count, path + ' table length')
    byaddr = {f.vaddr: f for f in fdes}
    for loc, addr in hdr.table:
        f = byaddr.get(addr)
        if check(f is not None, '%s hdr entry %#x -> %#x is not an FDE' % (path, loc, addr)):
            eq(f.pc_begin, loc, '%s hdr entry for FDE at %#x' % (path, addr))
    eq([l for l, _ in hdr.table], sorted(l for l, _ in hdr.table), path + ' hdr table sorted')
    # LSDA and personality ground truth: inside .gcc_except_table / the DW.ref slot.
    gx = e.section('.gcc_except_table')
    for f in fdes:
        if f.lsda is not None and gx is not None:
            check(gx.sh_addr <= f.lsda < gx.sh_addr + gx.sh_size,
                  '%s LSDA %#x outside .gcc_except_table' % (path, f.lsda))
    pers = {s.value for s in e.symbols('.symtab') if s.name == 'DW.ref.__gxx_personality_v0'}
    for c in recs:
        if isinstance(c, E.CIE) and 'P' in c.augmentation and pers and \
                c.personality_encoding & 0x80:
            check(c.personality in pers, '%s personality %#x not the DW.ref slot %r'
                  % (path, c.personality, pers))
    return len(fdes), len(hdr.table)


def cmp_dyn_relocs(e, path, relr_readelf):
    """dyn_relocs() (located via DT_* tags) must equal the section-based view."""
    if not e.dynamic():
        return 0
    d = e.dyn_relocs()
    bysec = {}
    for r in e.relocations():
        bysec.setdefault(r.section_name, []).append((r.offset, r.type, r.sym_index, r.addend))
    dd = e.dynamic_dict()
    n = 0
    for key, tag in (('rela', E.DT_RELA), ('jmprel', E.DT_JMPREL)):
        if tag not in dd:
            eq(d[key], [], '%s dyn_relocs[%s] without tag' % (path, key))
            continue
        sec = [s for s in e.sections if s.sh_type == E.SHT_RELA and s.sh_addr == dd[tag]
               and s.sh_size]
        if check(len(sec) >= 1, '%s no section at DT_%s' % (path, E.DT[tag])):
            exp = bysec.get(sec[0].name, [])
            if key == 'rela' and dd.get(E.DT_RELASZ, 0) > sec[0].sh_size:
                nxt = [s for s in e.sections if s.sh_addr == sec[0].sh_addr + sec[0].sh_size
                       and s.sh_type == E.SHT_RELA]
                exp = exp + (bysec.get(nxt[0].name, []) if nxt else [])
            eq(d[key], exp, '%s dyn_relocs[%s] vs %s' % (path, key, sec[0].name))
            n += len(exp)
    want = [a for lst in relr_readelf.values() for a in lst]
    eq(d['relr'], want, path + ' RELR decode vs readelf')
    if want:
        sec = e.section('.relr.dyn')
        eq(e.relr_raw(), [v for (v,) in struct.iter_unpack('<Q', sec.data)], path + ' relr_raw')
        eq(E.decode_relr(e.relr_raw()), want, path + ' decode_relr(relr_raw())')
    return n + len(want)


def cmp_stripped(e, path):
    """The same file without section headers: everything DT-based must still work and agree."""
    if not e.dynamic():
        return 0
    data = bytearray(e.data)
    struct.pack_into('<Q', data, 0x28, 0)        # e_shoff
    struct.pack_into('<HHH', data, 0x3a, 0, 0, 0)  # e_shentsize, e_shnum, e_shstrndx
    x = E.Elf(data=bytes(data))
    eq(x.sections, [], path + ' stripped: no sections')
    eq(x.dynamic(), e.dynamic(), path + ' stripped: dynamic')
    eq(x.needed(), e.needed(), path + ' stripped: needed')
    eq(x.dyn_relocs(), e.dyn_relocs(), path + ' stripped: dyn_relocs')
    eq(x.relr_raw(), e.relr_raw(), path + ' stripped: relr_raw')
    eq(x.gnu_hash(), e.gnu_hash(), path + ' stripped: gnu_hash')
    eq(x.sysv_hash(), e.sysv_hash(), path + ' stripped: sysv_hash')
    eq(x.versym(), e.versym(), path + ' stripped: versym')
    eq(x.verdefs(), e.verdefs(), path + ' stripped: verdefs')
    eq(x.verneeds(), e.verneeds(), path + ' stripped: verneeds')
    eq(x.symbols('.dynsym'), e.symbols('.dynsym'), path + ' stripped: dynsym via DT_SYMTAB')
    eq(x.symbols('.symtab'), [], path + ' stripped: no .symtab')
    eq(x.relocations(), [], path + ' stripped: no relocation sections')
    eq([n[1:] for n in x.notes()], [n[1:] for n in e.notes() if e.section(n[0]).sh_flags & 2],
       path + ' stripped: notes via PT_NOTE')
    eq(x.build_id(), e.build_id(), path + ' stripped: build id')
    eq(x.eh_frame_hdr(), e.eh_frame_hdr(), path + ' stripped: eh_frame_hdr via PT_GNU_EH_FRAME')
    eq([r[:7] for r in x.eh_frame()], [r[:7] for r in e.eh_frame()], path + ' stripped: eh_frame')
    for s in e.symbols('.dynsym'):
        if s.shndx:
            eq(x.gnu_lookup(s.name), e.gnu_lookup(s.name), path + ' stripped: gnu_lookup')
            eq(x.sysv_lookup(s.name), e.sysv_lookup(s.name), path + ' stripped: sysv_lookup')
    return 1


def full_compare(path, hexdump=('.rodata', '.text', '.dynstr', '.data', '.eh_frame'),
                 need_hdr=True):
    e = E.Elf(os.path.join(WORK, path))
    stats = {}
    cmp_header(e, path)
    cmp_sections(e, path)
    cmp_segments(e, path)
    stats['symtab'], stats['dynsym'] = cmp_symbols(e, path)
    stats['dynamic'] = cmp_dynamic(e, path)
    stats['relocs'], relr = cmp_relocations(e, path)
    stats['notes'] = cmp_notes(e, path)
    stats['hexdumps'] = sum(cmp_hexdump(e, path, s) for s in hexdump)
    stats['verdef'], stats['vernaux'] = cmp_versions(e, path)
    stats['image_sections'] = cmp_image(e, path)
    stats['lookups'] = cmp_hash(e, path)
    stats['fdes'], stats['hdr_entries'] = cmp_eh_frame(e, path, need_hdr)
    stats['dyn_relocs'] = cmp_dyn_relocs(e, path, relr)
    stats['relr'] = sum(len(v) for v in relr.values())
    stats['stripped'] = cmp_stripped(e, path)
    for name in ('.init_array', '.fini_array'):
        s = e.section(name)
        if s is not None:
            eq(e.pointer_array(name), [v for (v,) in struct.iter_unpack('<Q', s.data)],
               '%s pointer_array(%s)' % (path, name))
            if e.e_type == E.ET_EXEC:
                funcs = {y.value for y in e.symbols('.symtab') if y.type == E.STT_FUNC}
                check(all(p in funcs for p in e.pointer_array(name)),
                      '%s %s entries are functions' % (path, name))
    eq(e.pointer_array('.no.such'), [], path + ' pointer_array of absent section')
    print('  %-14s %s' % (path, ' '.join('%s=%s' % kv for kv in stats.items())))
    return e, stats
