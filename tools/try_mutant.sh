#!/bin/bash
# Owner's tool: apply a patch to /repo, run the given checks (quick tier, rebuilding), undo it.
#   tools/try_mutant.sh <patch.diff> <ID> [<ID>...]
set -u
patch=$1; shift
if [ -n "$(git -C /repo status --porcelain)" ]; then echo "/repo not clean" >&2; exit 2; fi
git -C /repo apply "$patch" || { echo "patch does not apply" >&2; exit 2; }
trap 'git -C /repo checkout -- . ; /verif/vbuild wild wild-b2 engines >/dev/null 2>&1' EXIT
cd /verif
# engines: unitx (C12/C13/C29) path-depends on /repo, so it is rebuilt from the patched tree too
./vbuild wild wild-b2 engines || { echo "build failed" >&2; exit 2; }
for id in "$@"; do
  out=/dev/shm/mut_$(basename "$patch" .diff)_$id.log
  timeout 3000 ./check "$id" --tier ${TIER:-quick} --no-build > "$out" 2>&1
  echo "$id exit=$? violations=$(grep -c '^VIOLATION' "$out") $(grep '^  key' "$out" | head -4 | cut -c1-160 | tr '\n' ';')"
done
