#!/bin/bash
# Owner's tool: run checks against a scratch worktree that already has a change applied, using a
# separate build directory so that nothing running against /repo is disturbed.
#   tools/try_mutant_wt.sh <worktree> <ID> [<ID>...]
wt=$1; shift
export VERIF_REPO=$wt VERIF_BUILD=.build-mut
cd /verif
# cargo decides freshness by mtime: a change made before the last build in this target dir would be skipped
(cd "$wt" && git diff --name-only | xargs -r touch)
./vbuild wild wild-b2 || { echo "build failed" >&2; exit 2; }
for id in "$@"; do
  out=/dev/shm/mutwt_$(basename "$wt")_$id.log
  timeout 3000 ./check "$id" --tier ${TIER:-quick} --no-build > "$out" 2>&1
  echo "$id exit=$? violations=$(grep -c '^VIOLATION' "$out") $(grep '^  key' "$out" | head -4 | cut -c1-160 | tr '\n' ';')"
done
