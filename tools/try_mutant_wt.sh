#!/bin/bash
# Owner's tool: run checks against a scratch worktree that already has a change applied, using a
# separate build directory so that nothing running against /repo is disturbed.
#   tools/try_mutant_wt.sh <worktree> <ID> [<ID>...]
# The worktree is compiled in the shared target directory .build-mut (incremental), under a lock;
# the binaries are then copied to .build-mut-<worktree name>/bin and the checks run against that
# copy, so that concurrent trials of different worktrees cannot see each other's binaries.
wt=$1; shift
name=$(basename "$wt")
cd /verif
mkdir -p .build-mut ".build-mut-$name/bin"
(
  flock 8
  # cargo decides freshness by mtime: a change made before the last build in this target dir
  # would otherwise be skipped (it once was: a bogus "miss")
  (cd "$wt" && git diff --name-only | xargs -r touch)
  VERIF_REPO=$wt VERIF_BUILD=.build-mut ./vbuild wild wild-b2 || exit 2
  cp -f .build-mut/bin/wild ".build-mut-$name/bin/wild"
  cp -f .build-mut/bin/wild-b2 ".build-mut-$name/bin/wild-b2"
  for f in unitx linker-diff; do [ -e .build/bin/$f ] && cp -f .build/bin/$f ".build-mut-$name/bin/$f"; done
  case " $* " in *" C34 "*)
    # linker-diff is the subject of C34: build it from the worktree too
    VERIF_REPO=$wt VERIF_BUILD=.build-mut ./vbuild linker-diff || exit 2
    cp -f .build-mut/bin/linker-diff ".build-mut-$name/bin/linker-diff" ;;
  esac
  # (unitx, the engine of C12/C13/C29, path-depends on /repo and is NOT rebuilt from the worktree)
  exit 0
) 8> .build-mut/trial.lock || { echo "build failed" >&2; exit 2; }
export VERIF_REPO=$wt VERIF_BUILD=.build-mut-$name
for id in "$@"; do
  out=/dev/shm/mutwt_${name}_$id.log
  timeout 3000 ./check "$id" --tier ${TIER:-quick} --no-build > "$out" 2>&1
  echo "$id exit=$? violations=$(grep -c '^VIOLATION' "$out") $(grep '^  key' "$out" | head -4 | cut -c1-160 | tr '\n' ';')"
done
